(* Lemmas for C05 recovers: MAC commands that can be sent (marshal to bytes the
   stream decoder splits back: from the lead's Mac/*Proofs.v), byte ranges of
   encryption and MIC outputs, invariance of the MIC under the wire view. *)
From Coq Require Import List NArith ZArith Bool Lia Arith.
From Coq Require Import ZifyN ZifyNat ZifyBool.
From LW Require Import Base.Outcome Base.Bytes Crypto.AES Crypto.AESInv Crypto.CMAC Crypto.CMACProofs
     Mac.Commands Mac.Spec Mac.Stream Mac.EqLemmas Mac.RegistryProofs Mac.EncProofs Mac.StreamProofs
     Frame.Model Frame.Spec Sec.MIC Sec.MICProofs Sec.Encrypt Sec.EncryptProofs Sec.EndToEnd Sec.FrameLemmas.
Import ListNotations.
Open Scope N_scope.
Ltac Zify.zify_post_hook ::= Z.div_mod_to_equations.

(* ---- sendable commands ---- *)
Lemma spec_in_range_wf v : spec_in_range v = true -> wf_go v = true.
Proof.
  destruct v; cbn [spec_in_range wf_go]; unfold u8, u32, i64, freq_ok;
    change (2 ^ 24) with 16777216; change (2 ^ 32) with 4294967296; intros H; try reflexivity; try lia.
  - destruct (2400000000 <=? freq) eqn:E; lia.
  - exact H.
Qed.

Lemma spec_in_range_unambiguous v : spec_in_range v = true -> newch_ambiguous v = false.
Proof.
  destruct v; try reflexivity. cbn [spec_in_range newch_ambiguous].
  change (2 ^ 24) with 16777216; change (2 ^ 32) with 4294967296. intros H.
  destruct (2400000000 <=? freq) eqn:E; lia.
Qed.

Lemma sendable_cmd_ok reg up it :
  cmd_sendable reg up it = true -> cmd_ok reg up it /\ item_resolution it = it.
Proof.
  destruct it as [c [v|]|d]; cbn [cmd_sendable cmd_ok item_resolution]; intros H; try discriminate.
  - repeat (apply andb_true_iff in H as [H ?]).
    destruct (reg_lookup reg up c) as [[sz k]|] eqn:El; [|discriminate].
    match goal with X : kind_eqb k (kind_of v) = true |- _ => apply kind_eqb_eq in X; subst k end.
    match goal with X : macpl_eqb (wire_resolution v) v = true |- _ => apply macpl_eqb_eq in X; rename X into Hw end.
    split.
    + split; [now apply spec_in_range_wf|]. split; [now apply spec_in_range_unambiguous|].
      exists sz. split; [reflexivity|]. destruct v; try exact I. discriminate.
    + now rewrite Hw.
  - apply andb_true_iff in H as [_ H]. destruct (reg_lookup reg up c); [discriminate|]. split; reflexivity.
Qed.

Lemma sendable_all_ok reg up its :
  forallb (cmd_sendable reg up) its = true -> Forall (cmd_ok reg up) its /\ map item_resolution its = its.
Proof.
  induction its as [|it rest IH]; intros H; [split; [constructor|reflexivity]|].
  cbn [forallb] in H. apply andb_true_iff in H as [H1 H2].
  destruct (sendable_cmd_ok _ _ _ H1) as [Hc Hr]. destruct (IH H2) as [Hcs Hrs].
  split; [now constructor|]. cbn [map]. now rewrite Hr, Hrs.
Qed.

Lemma sendable_is_mac reg up it : cmd_sendable reg up it = true -> is_mac it = true.
Proof. destruct it; [reflexivity|discriminate]. Qed.

(* a sendable command marshals to CID | payload: bytes, at least one, as many as items_size counts *)
Lemma sendable_cmd_marshal reg up it :
  reg_ok reg -> cmd_sendable reg up it = true ->
  exists b, item_marshal it = Ok b /\ Forall byte b /\ length b = items_size [it] /\ b <> [].
Proof.
  intros Hr H. destruct it as [c [v|]|d]; cbn [cmd_sendable] in H; try discriminate.
  - repeat (apply andb_true_iff in H as [H ?]).
    destruct (reg_lookup reg up c) as [[sz k]|] eqn:El; [|discriminate].
    match goal with X : spec_in_range v = true |- _ => rename X into Hin end.
    pose proof (spec_in_range_wf v Hin) as Hwf.
    pose proof (in_range_accepted v Hwf Hin) as Hok.
    cbn [item_marshal cmd_marshal]. destruct (enc v) as [pb| | |] eqn:E; try discriminate. cbn [bind].
    exists (c :: pb). split; [reflexivity|].
    assert (Hk : kind_of v <> KProprietary) by (destruct v; try discriminate).
    split; [constructor; [unfold byte; lia|exact (enc_bytes v pb Hwf E)]|].
    split; [|discriminate].
    pose proof (enc_length v pb Hwf Hk E) as HL.
    cbn [items_size length]. destruct v; try (exfalso; apply Hk; reflexivity); lia.
  - apply andb_true_iff in H as [H _]. cbn [item_marshal cmd_marshal]. exists [c].
    split; [reflexivity|]. split; [constructor; [unfold byte; lia|constructor]|]. split; [reflexivity|discriminate].
Qed.

Lemma items_size_cons it rest : items_size (it :: rest) = (items_size [it] + items_size rest)%nat.
Proof. destruct it as [c [v|]|d]; cbn [items_size]; lia. Qed.

Lemma sendable_marshal reg up its :
  reg_ok reg -> forallb (cmd_sendable reg up) its = true ->
  exists b, items_marshal its = Ok b /\ Forall byte b /\ length b = items_size its /\ (its = [] <-> b = []).
Proof.
  intros Hr. induction its as [|it rest IH]; intros H.
  - exists []. repeat split; auto; constructor.
  - cbn [forallb] in H. apply andb_true_iff in H as [H1 H2].
    destruct (sendable_cmd_marshal _ _ _ Hr H1) as (b1 & Hb1 & Hbb1 & Hl1 & Hn1).
    destruct (IH H2) as (b2 & Hb2 & Hbb2 & Hl2 & _).
    exists (b1 ++ b2). cbn [items_marshal]. rewrite Hb1, Hb2. cbn [bind].
    split; [reflexivity|]. split; [apply Forall_app; now split|].
    split; [rewrite app_length, items_size_cons; lia|].
    split; [discriminate|]. intros E. apply app_eq_nil in E as [E _]. contradiction.
Qed.

(* the decoder splits the marshalled commands back into the commands *)
Lemma sendable_decode reg up its b :
  reg_ok reg -> forallb (cmd_sendable reg up) its = true -> items_marshal its = Ok b ->
  decode_stream reg up b = Ok its.
Proof.
  intros Hr H Hb. destruct (sendable_all_ok _ _ _ H) as [Hc Hres].
  rewrite items_marshal_encode in Hb.
  rewrite (stream_roundtrip reg up its b Hr Hc Hb). now rewrite Hres.
Qed.

(* ---- byte ranges of the encryption outputs ---- *)
Lemma len_byte_lt msg : len_byte msg < 256.
Proof. unfold len_byte. apply N.mod_lt. lia. Qed.

Ltac bytes_tac :=
  repeat (apply Forall_cons || apply Forall_nil); try (unfold byte; lia); try apply len_byte_lt.

Lemma xor_bytes_byte a b : Forall byte a -> Forall byte b -> Forall byte (xor_bytes a b).
Proof.
  intros Ha. revert b; induction Ha as [|x a Hx _ IH]; intros b Hb; [constructor|].
  destruct Hb as [|y b Hy Hb]; [constructor|]. cbn [xor_bytes]. constructor; [now apply lxor_byte|now apply IH].
Qed.

Lemma devaddr_wire_bytes da : Forall byte da -> Forall byte (devaddr_wire da).
Proof.
  intros H. unfold devaddr_wire, copy4. apply Forall_take. apply Forall_app. split; [now apply Forall_rev|].
  repeat constructor.
Qed.

Lemma a_block_bytes b4 up da fc ctr :
  b4 < 256 -> ctr < 256 -> Forall byte da -> Forall byte (a_block b4 up da fc ctr).
Proof.
  intros H4 Hc Hd. unfold a_block.
  apply Forall_app; split; [bytes_tac; destruct up; unfold byte; lia|].
  apply Forall_app; split; [now apply devaddr_wire_bytes|].
  apply Forall_app; split; [apply le_bytes_ok|]. bytes_tac.
Qed.

Lemma ks_loop_bytes n key up da fc i :
  Forall byte key -> Forall byte da -> Forall byte (ks_loop n key up da fc i).
Proof.
  intros Hk Hd. revert i; induction n as [|n IH]; intros i; [constructor|].
  cbn [ks_loop]. apply Forall_app; split; [|apply IH].
  apply aes_encrypt_bytes; [exact Hk|]. apply a_block_bytes; auto; [lia|]. apply N.mod_lt. lia.
Qed.

Lemma encrypt_frm_bytes key up da fc d e :
  Forall byte key -> Forall byte da -> Forall byte d -> encrypt_frm key up da fc d = Ok e -> Forall byte e.
Proof.
  intros Hk Hd Hb. rewrite encrypt_frm_as_xor. intros [= <-].
  apply xor_bytes_byte; [exact Hb|now apply ks_loop_bytes].
Qed.

Lemma encrypt_fopts_bytes key a up da fc d e :
  Forall byte key -> Forall byte da -> Forall byte d -> encrypt_fopts key a up da fc d = Ok e -> Forall byte e.
Proof.
  intros Hk Hd Hb. unfold encrypt_fopts. destruct (15 <? length d)%nat; [discriminate|]. intros [= <-].
  apply xor_bytes_byte; [exact Hb|]. apply aes_encrypt_bytes; [exact Hk|].
  apply a_block_bytes; auto; [destruct a; lia|lia].
Qed.

(* ---- MIC: four bytes ---- *)
Lemma firstn_cmac_bytes n key msg :
  Forall byte key -> Forall byte msg -> Forall byte (firstn n (cmac key msg)).
Proof. intros Hk Hm. apply Forall_take. now apply cmac_bytes. Qed.

Lemma calc_up_mic_bytes ver conf txdr txch fk sk p m msg x :
  pl p = PLMac m -> mic_bytes p m = Ok msg -> calc_up_mic ver conf txdr txch fk sk p = Ok x ->
  Forall byte fk -> Forall byte sk -> Forall byte msg -> Forall byte (devaddr (hdr m)) -> txdr < 256 -> txch < 256 ->
  length x = 4%nat /\ Forall byte x.
Proof.
  intros Hp Hm Hc Hfk Hsk Hmsg Hda Hdr Hch. unfold calc_up_mic in Hc. rewrite Hp, Hm in Hc. cbn [bind] in Hc.
  assert (B0 : Forall byte (up_b0 m msg ++ msg)).
  { apply Forall_app; split; [|exact Hmsg]. unfold up_b0.
    apply Forall_app; split; [bytes_tac|].
    apply Forall_app; split; [now apply devaddr_wire_bytes|].
    apply Forall_app; split; [apply le_bytes_ok|]. bytes_tac. }
  destruct ver.
  - assert (E : x = firstn 4 (cmac fk (up_b0 m msg ++ msg))) by congruence. rewrite E. clear E Hc.
    split; [rewrite firstn_length, cmac_length; reflexivity|now apply firstn_cmac_bytes].
  - assert (E : x = firstn 2 (cmac sk (up_b1 ((if ack (fc (hdr m)) then conf else 0) mod 65536) txdr txch m msg ++ msg))
                    ++ firstn 2 (cmac fk (up_b0 m msg ++ msg))) by congruence. rewrite E. clear E Hc.
    split.
    + rewrite app_length, !firstn_length, !cmac_length. reflexivity.
    + apply Forall_app; split; [|now apply firstn_cmac_bytes].
      apply firstn_cmac_bytes; [exact Hsk|].
      apply Forall_app; split; [|exact Hmsg]. unfold up_b1.
      apply Forall_app; split; [bytes_tac|].
      apply Forall_app; split; [apply le_bytes_ok|].
      apply Forall_app; split; [bytes_tac|].
      apply Forall_app; split; [now apply devaddr_wire_bytes|].
      apply Forall_app; split; [apply le_bytes_ok|]. bytes_tac.
Qed.

Lemma calc_down_mic_bytes ver conf sk p m msg x :
  pl p = PLMac m -> mic_bytes p m = Ok msg -> calc_down_mic ver conf sk p = Ok x ->
  Forall byte sk -> Forall byte msg -> Forall byte (devaddr (hdr m)) ->
  length x = 4%nat /\ Forall byte x.
Proof.
  intros Hp Hm Hc Hsk Hmsg Hda. unfold calc_down_mic in Hc. rewrite Hp, Hm in Hc. cbn [bind] in Hc.
  match type of Hc with Ok ?t = _ => assert (E : x = t) by congruence end. rewrite E. clear E Hc.
  split; [rewrite firstn_length, cmac_length; reflexivity|].
  apply firstn_cmac_bytes; [exact Hsk|].
  apply Forall_app; split; [|exact Hmsg]. unfold down_b0.
  apply Forall_app; split; [bytes_tac|].
  apply Forall_app; split; [apply le_bytes_ok|].
  apply Forall_app; split; [bytes_tac|].
  apply Forall_app; split; [now apply devaddr_wire_bytes|].
  apply Forall_app; split; [apply le_bytes_ok|]. bytes_tac.
Qed.

(* ---- the MIC of the wire view (with the full counter restored) is the sender's MIC ---- *)
Lemma calc_up_mic_wire ver conf txdr txch fk sk p m x y :
  pl p = PLMac m -> calc_up_mic ver conf txdr txch fk sk p = Ok x ->
  calc_up_mic ver conf txdr txch fk sk
              (mkPHY (mtype p) (major p) (PLMac (wire_mac (fcnt (hdr m)) m)) y) = Ok x.
Proof.
  intros Hp. unfold calc_up_mic, mic_bytes. rewrite Hp. cbn [pl mtype major].
  destruct (mac_marshal m) as [b| | |] eqn:Eb; cbn [bind]; try discriminate.
  rewrite (mac_marshal_wire m (fcnt (hdr m)) b eq_refl Eb). cbn [bind].
  unfold up_b0, up_b1. cbn [wire_mac hdr fc ack devaddr fcnt]. auto.
Qed.

Lemma calc_down_mic_wire ver conf sk p m x y :
  pl p = PLMac m -> calc_down_mic ver conf sk p = Ok x ->
  calc_down_mic ver conf sk (mkPHY (mtype p) (major p) (PLMac (wire_mac (fcnt (hdr m)) m)) y) = Ok x.
Proof.
  intros Hp. unfold calc_down_mic, mic_bytes. rewrite Hp. cbn [pl mtype major].
  destruct (mac_marshal m) as [b| | |] eqn:Eb; cbn [bind]; try discriminate.
  rewrite (mac_marshal_wire m (fcnt (hdr m)) b eq_refl Eb). cbn [bind].
  unfold down_b0. cbn [wire_mac hdr fc ack devaddr fcnt]. auto.
Qed.
