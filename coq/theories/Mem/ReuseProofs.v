(* C10 (M2): decoding into a used value gives the result of decoding into a
   fresh one, for every decoder of the root package and every previous value. *)
From Coq Require Import List NArith ZArith Bool Arith Lia.
From LW Require Import Base.Outcome Base.Bytes Mac.Commands Mac.Stream Frame.Model Mem.Reuse.
Import ListNotations.
Local Open Scope nat_scope.

Lemma map_fst_combine {A B C} (f : A -> C) (l : list A) (l' : list B) :
  length l' = length l -> map (fun ip : A * B => f (fst ip)) (combine l l') = map f l.
Proof.
  revert l'; induction l as [|a l IH]; intros [|b l'] H; simpl in *; try discriminate; auto.
  f_equal. apply IH. lia.
Qed.

Lemma pad16b_length m : length (pad16b m) = 16.
Proof.
  unfold pad16b. rewrite firstn_length, app_length, repeat_length. lia.
Qed.

Lemma chmask_dec_into_spec prev data : chmask_dec_into prev data = dec_chmask data.
Proof.
  unfold chmask_dec_into, dec_chmask. destruct (Nat.eqb (length data) 2); auto.
  f_equal. apply (map_fst_combine (fun i => negb (N.land (le_val data) (N.shiftl 1 i) =? 0)%N)).
  apply pad16b_length.
Qed.

Theorem chmask_reuse : forall prev data, chmask_dec_into prev data = chmask_dec_into zero_mask data.
Proof. intros. now rewrite !chmask_dec_into_spec. Qed.

(* the reuse model of a payload decoder is the value-level decoder of C06/C07 (Mac.Commands.dec) *)
Theorem macpl_dec_into_spec : forall prev k data, macpl_dec_into prev k data = dec k data.
Proof.
  intros prev k data. destruct k; try reflexivity.
  cbn [macpl_dec_into dec]. destruct (Nat.eqb (length data) 4); auto.
  now rewrite chmask_dec_into_spec.
Qed.

Theorem macpl_reuse : forall prev k data, macpl_dec_into prev k data = macpl_dec_into (zero_value k) k data.
Proof. intros. now rewrite !macpl_dec_into_spec. Qed.

Theorem cmd_reuse : forall prev r up data,
  data <> [] -> cmd_dec_into prev r up data = cmd_dec_into (IMac 0 None) r up data.
Proof. intros prev r up [|c rest] H; [congruence|]. reflexivity. Qed.

Theorem cfl_channels_reuse : forall prev data, cfl_channels_dec_into prev data = cfl_channels_dec_into zero_channels data.
Proof. reflexivity. Qed.

Theorem cfl_masks_reuse : forall prev data, cfl_masks_dec_into prev data = cfl_masks_dec_into [] data.
Proof. reflexivity. Qed.

Theorem cflist_reuse : forall prev data, cflist_dec_into prev data = cflist_dec_into zero_cflist data.
Proof. reflexivity. Qed.

Theorem joinaccept_reuse : forall prev data, joinaccept_dec_into prev data = joinaccept_dec_into zero_joinaccept data.
Proof. reflexivity. Qed.

Theorem fhdr_reuse : forall prev data, fhdr_dec_into prev data = fhdr_dec_into zero_fhdr data.
Proof. reflexivity. Qed.

Theorem mac_reuse : forall prev data, mac_dec_into prev data = mac_dec_into zero_mac data.
Proof. reflexivity. Qed.

Theorem phy_reuse : forall prev data, phy_dec_into prev data = phy_dec_into zero_phy data.
Proof. reflexivity. Qed.

(* the reuse models of the join-accept payload and of the CFList agree with the frame model of C01 *)
Lemma cfl_masks_16 : forall d : list N, length d = 16 ->
  cfl_masks_dec_into [] (firstn 15 d) = Ok (masks_loop (firstn 12 d) 8 [] []).
Proof.
  intros d H. do 16 (destruct d as [|? d]; [discriminate|]). destruct d; [|discriminate].
  unfold cfl_masks_dec_into. generalize masks_loop. intros ml. reflexivity.
Qed.

Theorem joinaccept_dec_into_spec : forall prev data, joinaccept_dec_into prev data = joinaccept_unmarshal data.
Proof.
  intros prev data. unfold joinaccept_dec_into, joinaccept_unmarshal.
  destruct (negb (Nat.eqb (length data) 12) && negb (Nat.eqb (length data) 28)); auto.
  destruct (dec_dlsettings (nth 10 data 0%N)) as [[o r2] r1].
  destruct (Nat.eqb (length data) 28) eqn:E; auto.
  replace (cflist_dec_into zero_cflist (skipn 12 data)) with (cflist_unmarshal (skipn 12 data)); auto.
  unfold cflist_dec_into, cflist_unmarshal.
  destruct (negb (Nat.eqb (length (skipn 12 data)) 16)) eqn:E16; auto.
  apply negb_false_iff, Nat.eqb_eq in E16.
  set (d := skipn 12 data) in *.
  destruct (nth 15 d 0%N =? 1)%N.
  - rewrite (cfl_masks_16 d E16). cbn [bind]. rewrite firstn_firstn. reflexivity.
  - unfold cfl_channels_dec_into. rewrite firstn_length, E16. cbn -[le_val firstn skipn N.mul].
    reflexivity.
Qed.
