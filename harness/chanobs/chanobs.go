// Package chanobs: helpers shared by the C14/C15 harnesses and the
// ChannelsGen.v dumper. Everything is read through the public band API
// (unexported Channel fields through read-only reflection on returned values).
package chanobs

import (
	"fmt"
	"reflect"
	"strings"

	"github.com/brocaar/lorawan"
	"github.com/brocaar/lorawan/band"
	"verifharness/internal/cq"
)

// Config identifies one band configuration; Index is its position in
// ChannelsGen.configs.
type Config struct {
	Index    int
	Name     band.Name
	Repeater bool
	Dwell    lorawan.DwellTime
}

var Names = []band.Name{band.AS923, band.AS923_2, band.AS923_3, band.AS923_4, band.AU915, band.CN470,
	band.CN779, band.EU433, band.EU868, band.IN865, band.KR920, band.US915, band.RU864, band.ISM2400}

// Configs lists the 14 bands x repeater x dwell-time, in the order of the dump.
func Configs() []Config {
	var out []Config
	for _, n := range Names {
		for _, rep := range []bool{false, true} {
			for _, dt := range []lorawan.DwellTime{lorawan.DwellTimeNoLimit, lorawan.DwellTime400ms} {
				out = append(out, Config{Index: len(out), Name: n, Repeater: rep, Dwell: dt})
			}
		}
	}
	return out
}

func (c Config) New() band.Band {
	b, err := band.GetConfig(c.Name, c.Repeater, c.Dwell)
	if err != nil {
		panic(err)
	}
	return b
}

func (c Config) String() string {
	return fmt.Sprintf("%s:rep=%d:dwell=%d", c.Name, b2i(c.Repeater), int(c.Dwell))
}

func b2i(b bool) int {
	if b {
		return 1
	}
	return 0
}

// Chan is a band.Channel with its unexported flags.
type Chan struct {
	Freq         uint32
	MinDR, MaxDR int
	Enabled      bool
	Custom       bool
}

func FromChannel(c band.Channel) Chan {
	v := reflect.ValueOf(c)
	return Chan{Freq: c.Frequency, MinDR: c.MinDR, MaxDR: c.MaxDR,
		Enabled: v.FieldByName("enabled").Bool(), Custom: v.FieldByName("custom").Bool()}
}

// Coq prints `mkChannel f mn mx en cu`.
func (c Chan) Coq() string {
	return fmt.Sprintf("(mkChannel %s %s %s %s %s)", cq.Z(int64(c.Freq)), cq.Z(int64(c.MinDR)), cq.Z(int64(c.MaxDR)), cq.Bool(c.Enabled), cq.Bool(c.Custom))
}

// Outcome kinds of a call made under recover().
const (
	KOk = iota
	KErr
	KPanic
)

// Call runs f under recover and classifies the result.
func Call(f func() error) (kind int) {
	defer func() {
		if r := recover(); r != nil {
			kind = KPanic
		}
	}()
	if err := f(); err != nil {
		return KErr
	}
	return KOk
}

// Out prints an outcome term: ok is used only when kind == KOk.
func Out(kind int, ok string) string {
	switch kind {
	case KOk:
		return cq.Ok(ok)
	case KErr:
		return cq.Err
	}
	return cq.Panic
}

func KindName(k int) string { return [...]string{"ok", "err", "panic"}[k] }

// UplinkChannel / DownlinkChannel under recover.
func UplinkChannel(b band.Band, i int) (int, Chan) {
	var c band.Channel
	k := Call(func() error { var err error; c, err = b.GetUplinkChannel(i); return err })
	return k, FromChannel(c)
}

func DownlinkChannel(b band.Band, i int) (int, Chan) {
	var c band.Channel
	k := Call(func() error { var err error; c, err = b.GetDownlinkChannel(i); return err })
	return k, FromChannel(c)
}

// Downlinks reads downlink channels 0.. until the first non-Ok answer.
func Downlinks(b band.Band) []Chan {
	var out []Chan
	for i := 0; i < 100000; i++ {
		k, c := DownlinkChannel(b, i)
		if k != KOk {
			break
		}
		out = append(out, c)
	}
	return out
}

func Uplinks(b band.Band) []Chan {
	var out []Chan
	for i := 0; i < 100000; i++ {
		k, c := UplinkChannel(b, i)
		if k != KOk {
			break
		}
		out = append(out, c)
	}
	return out
}

func TXPowerOffsets(b band.Band) []int {
	var out []int
	for i := 0; i < 1000; i++ {
		var v int
		k := Call(func() error { var err error; v, err = b.GetTXPowerOffset(i); return err })
		if k != KOk {
			break
		}
		out = append(out, v)
	}
	return out
}

// SupportsExtra reports whether AddChannel succeeds on a fresh instance.
func SupportsExtra(c Config) bool {
	return c.New().AddChannel(868100000, 0, 0) == nil
}

// CFListDRRange infers cFListMinDR/cFListMaxDR through the public API: the
// (minDR, maxDR) pair for which an added channel shows up in GetCFList.
func CFListDRRange(c Config) (int, int, bool) {
	for a := -1; a <= 16; a++ {
		for d := -1; d <= 16; d++ {
			b := c.New()
			if b.AddChannel(868100000, a, d) != nil {
				continue // not a data-rate range the band accepts
			}
			if b.GetCFList(band.LoRaWAN_1_0_3) != nil {
				return a, d, true
			}
		}
	}
	return 0, 0, false
}

// UplinkDataRates lists the data-rate indices the band defines for uplink:
// GetDataRate(dr) succeeds and the (unexported) uplink flag of the returned
// value is set.
func UplinkDataRates(b band.Band) []int {
	var out []int
	for dr := -2; dr <= 64; dr++ {
		var d band.DataRate
		if Call(func() error { var err error; d, err = b.GetDataRate(dr); return err }) != KOk {
			continue
		}
		if reflect.ValueOf(d).FieldByName("uplink").Bool() {
			out = append(out, dr)
		}
	}
	return out
}

func ChanList(cs []Chan) string {
	s := make([]string, len(cs))
	for i, c := range cs {
		s[i] = c.Coq()
	}
	return "[" + strings.Join(s, ";\n    ") + "]"
}

// CoqString prints a Coq string literal.
func CoqString(s string) string { return "\"" + strings.ReplaceAll(s, "\"", "\"\"") + "\"%string" }
