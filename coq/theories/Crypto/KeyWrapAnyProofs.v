(* RFC 3394 key wrap under 16-, 24- and 32-byte KEKs (KeyWrapAny.v): unwrap
   inverts wrap, a successful unwrap determines its input, unwrap succeeds
   exactly when the recovered initial value is the default one, length and
   byte range of the wrapped key, and agreement with KeyWrap.v for 16-byte
   KEKs.  Everything is an instance of the round-key forms of KeyWrapProofs.v
   with the well-formed expanded keys of AESAnyProofs.v. *)
From Coq Require Import List NArith Bool Lia Arith.
From LW Require Import Base.Outcome Base.Bytes Crypto.AES Crypto.AESInv Crypto.CMACProofs
  Crypto.AESAny Crypto.AESAnyProofs Crypto.KeyWrap Crypto.KeyWrapProofs Crypto.KeyWrapAny.
Import ListNotations.
Open Scope N_scope.

(* ---- length of wrap over any well-shaped round keys ---- *)
Lemma wrap_rk_length_gen rks iv p : Forall len16 rks -> length iv = 8%nat ->
  length (wrap_rk rks iv p) = (8 * (length p / 8) + 8)%nat.
Proof.
  intros Hr Hiv. unfold wrap_rk.
  set (n := (length p / 8)%nat).
  assert (Hc : all8 (chunks8 n p)).
  { apply chunks8_all8. unfold n. pose proof (Nat.mul_div_le (length p) 8). lia. }
  destruct (wrap_passes_len 6 rks (N.of_nat n) Hr 0 iv (chunks8 n p) Hiv Hc) as [L1 L2].
  pose proof (wrap_passes_length 6 rks (N.of_nat n) 0 iv (chunks8 n p)) as WL.
  rewrite chunks8_length in WL.
  destruct (wrap_passes 6 rks (N.of_nat n) 0 iv (chunks8 n p)) as [a rs].
  cbn [fst snd] in *. rewrite app_length, concat_all8_length, L1, WL by exact L2. lia.
Qed.

Lemma wrap_rk_bytes rks iv p n : Forall st16 rks -> blk8 iv -> Forall byte p -> length p = (8 * n)%nat ->
  Forall byte (wrap_rk rks iv p).
Proof.
  intros Hr Hiv Hp Hl. unfold wrap_rk.
  replace (length p / 8)%nat with n by (rewrite Hl, Nat.mul_comm, Nat.div_mul; lia).
  destruct (chunks8_spec n p Hl Hp) as [C1 _].
  destruct (wrap_passes_inv rks Hr 6 (N.of_nat n) 0 iv (chunks8 n p) Hiv C1) as (W1 & W2 & _).
  destruct (wrap_passes 6 rks (N.of_nat n) 0 iv (chunks8 n p)) as [a rs].
  cbn [fst snd] in *. apply Forall_app. split; [apply W1|apply Forall_blk8_bytes, W2].
Qed.

Local Opaque wrap_rk unwrap_raw_rk expand_nk expand_key.

(* ---- defined exactly for the key sizes of crypto/aes ---- *)
Theorem wrap_any_some_iff kek p : (exists w, wrap_any kek p = Some w) <-> key_len_ok kek.
Proof.
  rewrite <- expand_key_any_some_iff. unfold wrap_any.
  destruct (expand_key_any kek) as [rks|]; split; intros [x H]; try discriminate; eauto.
Qed.

Theorem unwrap_raw_any_some_iff kek d : (exists r, unwrap_raw_any kek d = Some r) <-> key_len_ok kek.
Proof.
  rewrite <- expand_key_any_some_iff. unfold unwrap_raw_any.
  destruct (expand_key_any kek) as [rks|]; split; intros [x H]; try discriminate; eauto.
Qed.

Theorem any_key_size_error kek x : ~ key_len_ok kek ->
  wrap_any kek x = None /\ unwrap_raw_any kek x = None /\ unwrap_any kek x = None.
Proof.
  intros H. apply expand_key_any_none_iff in H.
  unfold unwrap_any, wrap_any, unwrap_raw_any. rewrite H. auto.
Qed.

(* ---- unwrap inverts wrap: n >= 0 blocks of 64 bits, every KEK size ---- *)
Theorem unwrap_raw_wrap_any kek p n w :
  Forall byte kek -> Forall byte p -> length p = (8 * n)%nat ->
  wrap_any kek p = Some w -> unwrap_raw_any kek w = Some (default_iv, p).
Proof.
  intros Hk Hp Hl. unfold wrap_any, unwrap_raw_any.
  destruct (expand_key_any kek) as [rks|] eqn:E; [|discriminate].
  intros H. inversion H; subst w. f_equal.
  apply (unwrap_raw_wrap_rk rks default_iv p n); auto using default_iv_blk8.
  exact (expand_key_any_st16 kek rks Hk E).
Qed.

Theorem unwrap_wrap_any_some kek p n w :
  Forall byte kek -> Forall byte p -> length p = (8 * n)%nat ->
  wrap_any kek p = Some w -> unwrap_any kek w = Some p.
Proof.
  intros Hk Hp Hl H. unfold unwrap_any. rewrite (unwrap_raw_wrap_any kek p n w Hk Hp Hl H).
  replace (bytes_eqb default_iv default_iv) with true by reflexivity. reflexivity.
Qed.

(* the form used by the key envelope: KEK of 16, 24 or 32 bytes *)
Theorem unwrap_wrap_any kek p n :
  key_len_ok kek -> Forall byte kek -> Forall byte p -> length p = (8 * n)%nat ->
  exists w, wrap_any kek p = Some w /\ unwrap_any kek w = Some p /\
            length w = (length p + 8)%nat /\ Forall byte w.
Proof.
  intros Hok Hk Hp Hl. destruct (proj2 (wrap_any_some_iff kek p) Hok) as [w Hw].
  exists w. split; [exact Hw|]. split; [exact (unwrap_wrap_any_some kek p n w Hk Hp Hl Hw)|].
  unfold wrap_any in Hw. destruct (expand_key_any kek) as [rks|] eqn:E; [|discriminate].
  inversion Hw; subst w. pose proof (expand_key_any_st16 kek rks Hk E) as Hr. split.
  - rewrite wrap_rk_length_gen; [|apply st16_len16, Hr|reflexivity].
    rewrite Hl, (Nat.mul_comm 8 n), Nat.div_mul by lia. lia.
  - apply (wrap_rk_bytes rks default_iv p n); auto using default_iv_blk8.
Qed.

(* as one equation: wrap, then unwrap with the same KEK *)
Definition wrap_then_unwrap (kek p : list N) : option (list N) :=
  match wrap_any kek p with Some w => unwrap_any kek w | None => None end.

Theorem unwrap_any_wrap_any kek p n :
  key_len_ok kek -> Forall byte kek -> Forall byte p -> length p = (8 * n)%nat ->
  wrap_then_unwrap kek p = Some p.
Proof.
  intros Hok Hk Hp Hl. destruct (unwrap_wrap_any kek p n Hok Hk Hp Hl) as (w & Hw & Hu & _).
  unfold wrap_then_unwrap. rewrite Hw. exact Hu.
Qed.

(* ---- success exactly when the integrity check passes ---- *)
Theorem unwrap_any_ok_iff_iv kek d p :
  unwrap_any kek d = Some p <-> unwrap_raw_any kek d = Some (default_iv, p).
Proof.
  unfold unwrap_any. destruct (unwrap_raw_any kek d) as [[iv pl]|]; [|split; discriminate].
  destruct (bytes_eqb iv default_iv) eqn:E.
  - apply bytes_eqb_eq in E. subst iv. split; intros H; inversion H; reflexivity.
  - split; intros H; [discriminate H|]. inversion H; subst.
    assert (T : bytes_eqb default_iv default_iv = true) by reflexivity. congruence.
Qed.

Theorem unwrap_any_fails_iff kek d : key_len_ok kek ->
  (unwrap_any kek d = None <-> exists iv pl, unwrap_raw_any kek d = Some (iv, pl) /\ iv <> default_iv).
Proof.
  intros Hok. destruct (proj2 (unwrap_raw_any_some_iff kek d) Hok) as [[iv pl] Hr].
  unfold unwrap_any. rewrite Hr. destruct (bytes_eqb iv default_iv) eqn:E.
  - apply bytes_eqb_eq in E. subst iv. split; [discriminate|].
    intros (iv' & pl' & H & Hne). inversion H; subst. contradiction.
  - split; [|reflexivity]. intros _. exists iv, pl. split; [reflexivity|].
    intros ->. assert (T : bytes_eqb default_iv default_iv = true) by reflexivity. congruence.
Qed.

(* ---- a successful unwrap determines its input ---- *)
Theorem wrap_unwrap_any kek d p n :
  Forall byte kek -> Forall byte d -> length d = (8 * (n + 1))%nat ->
  unwrap_any kek d = Some p -> wrap_any kek p = Some d.
Proof.
  intros Hk Hd Hl H. apply unwrap_any_ok_iff_iv in H. unfold unwrap_raw_any in H. unfold wrap_any.
  destruct (expand_key_any kek) as [rks|] eqn:E; [|discriminate].
  pose proof (wrap_unwrap_raw_rk rks d n (expand_key_any_st16 kek rks Hk E) Hd Hl) as W.
  inversion H as [H1]. rewrite H1 in W. cbn [fst snd] in W. now rewrite W.
Qed.

(* ---- length and byte range (any plaintext length; a trailing partial block is ignored) ---- *)
Theorem wrap_any_length kek p w : Forall byte kek -> wrap_any kek p = Some w ->
  length w = (8 * (length p / 8) + 8)%nat.
Proof.
  intros Hk. unfold wrap_any. destruct (expand_key_any kek) as [rks|] eqn:E; [|discriminate].
  intros H. inversion H; subst w. apply wrap_rk_length_gen; [|reflexivity].
  apply st16_len16, (expand_key_any_st16 kek rks Hk E).
Qed.

(* ---- 16-byte KEKs: the functions of KeyWrap.v ---- *)
Theorem wrap_any_128 kek p : length kek = 16%nat -> wrap_any kek p = Some (wrap kek p).
Proof. intros H. unfold wrap_any, wrap. rewrite expand_key_any_128 by exact H. exact eq_refl. Qed.

Theorem unwrap_raw_any_128 kek d : length kek = 16%nat -> unwrap_raw_any kek d = Some (unwrap_raw kek d).
Proof. intros H. unfold unwrap_raw_any, unwrap_raw. rewrite expand_key_any_128 by exact H. exact eq_refl. Qed.

Theorem unwrap_any_128 kek d : length kek = 16%nat -> unwrap_any kek d = unwrap kek d.
Proof. intros H. unfold unwrap_any, unwrap. rewrite unwrap_raw_any_128 by exact H. exact eq_refl. Qed.
