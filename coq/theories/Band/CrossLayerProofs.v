(* Round-trip proofs for the local MAC-layer encoder model (C14 encodability,
   C15 cross-layer clause). *)
From Coq Require Import List ZArith Bool Lia.
From Coq Require Import ZifyBool ZifyNat.
From LW Require Import Base.Outcome Band.Channels Band.Planner Band.PlannerSpec Band.CrossLayer.
Import ListNotations.
Open Scope Z_scope.
Ltac Zify.zify_post_hook ::= Z.div_mod_to_equations.

(* ---- the 24-bit frequency field --------------------------------------------------- *)

Lemma unle3_le3 x : 0 <= x < 16777216 -> unle3 (le3 x) = x.
Proof. intros H. unfold le3, unle3. lia. Qed.

Lemma le3_bytes x : 0 <= x -> Forall (fun b => 0 <= b < 256) (le3 x).
Proof. intros H. unfold le3. repeat constructor; lia. Qed.

Lemma freq_ok_spec f : freq_ok f = true <-> 0 <= f /\ f mod 100 = 0 /\ f < 1677721600.
Proof. unfold freq_ok. lia. Qed.

Theorem freq3_roundtrip f : freq_ok f = true ->
  exists bs, freq3 f = Ok bs /\ length bs = 3%nat /\ Forall (fun b => 0 <= b < 256) bs /\ unfreq3 bs = f.
Proof.
  intros H. apply freq_ok_spec in H. unfold freq3.
  destruct (f / 100 >=? 16777216) eqn:A; [lia|]. destruct (f mod 100 =? 0) eqn:M; [|lia]. cbn [negb].
  eexists. split; [reflexivity|]. split; [reflexivity|]. split; [apply le3_bytes; lia|].
  unfold unfreq3. rewrite unle3_le3 by lia. lia.
Qed.

(* lossless or error: whatever is accepted decodes to the same frequency *)
Theorem freq3_lossless f bs : 0 <= f -> freq3 f = Ok bs -> unfreq3 bs = f.
Proof.
  intros Hf. unfold freq3. destruct (f / 100 >=? 16777216) eqn:A; [discriminate|].
  destruct (f mod 100 =? 0) eqn:M; cbn [negb]; [|discriminate]. intros E. injection E as <-.
  unfold unfreq3. rewrite unle3_le3 by lia. lia.
Qed.

Theorem cf_freq3_roundtrip f : freq_ok f = true ->
  cf_freq3 f = Ok (le3 (f / 100)) /\ unle3 (le3 (f / 100)) * 100 = f.
Proof.
  intros H. apply freq_ok_spec in H. unfold cf_freq3.
  destruct (f mod 100 =? 0) eqn:M; [|lia]. cbn [negb].
  destruct (f / 100 >? 16777215) eqn:A; [lia|]. split; [reflexivity|]. rewrite unle3_le3 by lia. lia.
Qed.

(* ---- MAC commands -------------------------------------------------------------------- *)

Theorem rxparamsetupreq_roundtrip f dr : freq_ok f = true -> 0 <= dr <= 15 ->
  exists bs, rxparamsetupreq_marshal f dr = Ok bs /\ rxparamsetupreq_unmarshal bs = Ok (f, dr).
Proof.
  intros H Hd. apply freq_ok_spec in H. unfold rxparamsetupreq_marshal, dlsettings_byte.
  destruct (f / 100 >=? 16777216) eqn:A; [lia|]. destruct (f mod 100 =? 0) eqn:M; [|lia]. cbn [negb].
  destruct (dr >? 15) eqn:D; [lia|]. cbn [bind]. eexists. split; [reflexivity|].
  unfold le3. cbn [rxparamsetupreq_unmarshal]. f_equal. f_equal; [|lia].
  change (unle3 [f / 100 mod 256; f / 100 / 256 mod 256; f / 100 / 65536 mod 256]) with (unle3 (le3 (f / 100))).
  rewrite unle3_le3 by lia. lia.
Qed.

Lemma newchannel_freq_ok_spec f : newchannel_freq_ok f = true <->
  (0 <= f /\ f mod 100 = 0 /\ f < 1200000000) \/ (2400000000 <= f /\ f mod 200 = 0 /\ f / 200 < 16777216).
Proof. unfold newchannel_freq_ok. lia. Qed.

Lemma lxor_nibbles a b : 0 <= a <= 15 -> 0 <= b <= 15 ->
  Z.lxor a ((b * 16) mod 256) = a + 16 * b.
Proof.
  intros Ha Hb.
  assert (forallb (fun a => forallb (fun b => Z.lxor a ((b * 16) mod 256) =? a + 16 * b)
                                    (map Z.of_nat (seq 0 16))) (map Z.of_nat (seq 0 16)) = true) by (vm_compute; reflexivity).
  rewrite forallb_forall in H. specialize (H a). rewrite forallb_forall in H.
  apply Z.eqb_eq. apply H; apply in_map_iff.
  - exists (Z.to_nat a). split; [lia|]. apply in_seq. lia.
  - exists (Z.to_nat b). split; [lia|]. apply in_seq. lia.
Qed.

Theorem newchannelreq_roundtrip ch f mx mn :
  newchannel_freq_ok f = true -> 0 <= ch < 256 -> 0 <= mx <= 15 -> 0 <= mn <= 15 ->
  exists bs, newchannelreq_marshal ch f mx mn = Ok bs /\ newchannelreq_unmarshal bs = Ok (ch, f, mx, mn).
Proof.
  intros H Hc Hx Hn. apply newchannel_freq_ok_spec in H. unfold newchannelreq_marshal.
  set (fr := if f >=? 2400000000 then f / 2 else f).
  assert (Hfr : 0 <= fr / 100 < 16777216) by (unfold fr; destruct (f >=? 2400000000) eqn:G; lia).
  destruct (fr / 100 >=? 16777216) eqn:A; [lia|]. destruct (f mod 100 =? 0) eqn:M; [|lia]. cbn [negb].
  destruct ((f >=? 2400000000) && negb (f mod 200 =? 0)) eqn:T; [lia|].
  destruct (mx >? 15) eqn:D1; [lia|]. destruct (mn >? 15) eqn:D2; [lia|].
  eexists. split; [reflexivity|]. unfold le3. cbn [app newchannelreq_unmarshal].
  change (unle3 [fr / 100 mod 256; fr / 100 / 256 mod 256; fr / 100 / 65536 mod 256]) with (unle3 (le3 (fr / 100))).
  rewrite unle3_le3 by lia. rewrite lxor_nibbles by lia.
  assert (E : (if fr / 100 >=? 12000000 then (fr / 100 * 200) mod 2 ^ 32 else fr / 100 * 100) = f).
  { unfold fr. destruct (f >=? 2400000000) eqn:G.
    - destruct (f / 2 / 100 >=? 12000000) eqn:G2; [|lia]. change (2 ^ 32) with 4294967296. lia.
    - destruct (f / 100 >=? 12000000) eqn:G2; lia. }
  rewrite E. do 3 f_equal; lia.
Qed.

(* lossless or refused, for EVERY frequency (any residue modulo 100 / 200, any
   range): what the encoder accepts decodes to the same values, except in the
   window 1.2 GHz .. 2.4 GHz (finding C15-4 / C07-2) *)
Theorem newchannelreq_lossless_or_error ch f mx mn bs :
  0 <= ch < 256 -> 0 <= f -> 0 <= mx -> 0 <= mn ->
  newchannelreq_marshal ch f mx mn = Ok bs ->
  newchannelreq_unmarshal bs = Ok (ch, f, mx, mn) \/ 1200000000 <= f < 2400000000.
Proof.
  intros Hc Hf Hx Hn H.
  destruct ((1200000000 <=? f) && (f <? 2400000000)) eqn:W; [right; lia|left].
  assert (C : newchannel_freq_ok f = true /\ mx <= 15 /\ mn <= 15).
  { revert H. unfold newchannelreq_marshal.
    set (fr := if f >=? 2400000000 then f / 2 else f).
    destruct (fr / 100 >=? 16777216) eqn:A; [discriminate|].
    destruct (f mod 100 =? 0) eqn:M; [|discriminate]. cbn [negb].
    destruct ((f >=? 2400000000) && negb (f mod 200 =? 0)) eqn:T; [discriminate|].
    destruct (mx >? 15) eqn:D1; [discriminate|]. destruct (mn >? 15) eqn:D2; [discriminate|].
    intros _. split; [|lia]. apply newchannel_freq_ok_spec. unfold fr in A.
    destruct (f >=? 2400000000) eqn:G; lia. }
  destruct C as (Ok1 & Hx' & Hn').
  destruct (newchannelreq_roundtrip ch f mx mn Ok1 Hc (conj Hx Hx') (conj Hn Hn')) as (bs' & E & D).
  rewrite H in E. injection E as <-. exact D.
Qed.

(* AddChannel (after the fix for finding C15-9) accepts exactly the frequencies the
   NewChannelReq encoder accepts *)
Theorem accepted_freq_newchannelreq ch f mx mn : 0 <= mx <= 15 -> 0 <= mn <= 15 ->
  (valid_channel_freq f = true <-> exists bs, newchannelreq_marshal ch f mx mn = Ok bs).
Proof.
  intros Hx Hn. unfold valid_channel_freq, newchannelreq_marshal.
  set (fr := if f >=? 2400000000 then f / 2 else f).
  destruct (fr / 100 >=? 16777216) eqn:A.
  { split; [lia|intros [bs E]; discriminate]. }
  destruct (f mod 100 =? 0) eqn:M; cbn [negb].
  2:{ split; [lia|intros [bs E]; discriminate]. }
  destruct ((f >=? 2400000000) && negb (f mod 200 =? 0)) eqn:T.
  { split; [lia|intros [bs E]; discriminate]. }
  destruct (mx >? 15) eqn:D1; [lia|]. destruct (mn >? 15) eqn:D2; [lia|].
  split; [intros _; eexists; reflexivity|intros _; lia].
Qed.

(* the window in which NewChannelReq is not lossless (finding C15-4 / C07-2) *)
Theorem newchannelreq_refuted :
  exists bs, newchannelreq_marshal 3 1300000000 5 0 = Ok bs /\
             newchannelreq_unmarshal bs = Ok (3, 2600000000, 5, 0).
Proof. exists [3; 64; 93; 198; 80]. split; vm_compute; reflexivity. Qed.

Theorem dlchannelreq_roundtrip ch f : freq_ok f = true -> 0 <= ch < 256 ->
  exists bs, dlchannelreq_marshal ch f = Ok bs /\ dlchannelreq_unmarshal bs = Ok (ch, f).
Proof.
  intros H Hc. destruct (freq3_roundtrip f H) as [bs [E [L [_ R]]]].
  unfold dlchannelreq_marshal. rewrite E. cbn [bind]. eexists. split; [reflexivity|].
  destruct bs as [|a [|b [|c [|? ?]]]]; try discriminate. cbn [dlchannelreq_unmarshal].
  unfold unfreq3 in R. now rewrite R.
Qed.

Theorem beaconfreqreq_roundtrip f : freq_ok f = true ->
  exists bs, beaconfreqreq_marshal f = Ok bs /\ beaconfreqreq_unmarshal bs = Ok f.
Proof.
  intros H. destruct (freq3_roundtrip f H) as [bs [E [L [_ R]]]].
  unfold beaconfreqreq_marshal. exists bs. split; [exact E|].
  destruct bs as [|a [|b [|c [|? ?]]]]; try discriminate. cbn [beaconfreqreq_unmarshal].
  unfold unfreq3 in R. now rewrite R.
Qed.

Theorem pingslotchannelreq_roundtrip f dr : freq_ok f = true -> 0 <= dr <= 15 ->
  exists bs, pingslotchannelreq_marshal f dr = Ok bs /\ pingslotchannelreq_unmarshal bs = Ok (f, dr).
Proof.
  intros H Hd. apply freq_ok_spec in H. unfold pingslotchannelreq_marshal.
  destruct (f / 100 >=? 16777216) eqn:A; [lia|]. destruct (f mod 100 =? 0) eqn:M; [|lia]. cbn [negb].
  destruct (dr >=? 16) eqn:D; [lia|]. eexists. split; [reflexivity|].
  unfold le3. cbn [app pingslotchannelreq_unmarshal]. f_equal. f_equal; [|lia].
  change (unle3 [f / 100 mod 256; f / 100 / 256 mod 256; f / 100 / 65536 mod 256]) with (unle3 (le3 (f / 100))).
  rewrite unle3_le3 by lia. lia.
Qed.

(* ISM2400's own frequencies do not fit (finding C15-2) *)
Theorem ism2400_rx2_refuted : rxparamsetupreq_marshal 2423000000 0 = Err /\ freq3 2403000000 = Err.
Proof. split; vm_compute; reflexivity. Qed.

(* ---- ChMask and LinkADRReq -------------------------------------------------------------- *)

Lemma bits_val_range m : 0 <= bits_val m < 2 ^ Z.of_nat (length m).
Proof.
  induction m as [|b m IH]; cbn [bits_val length]; [simpl; lia|].
  rewrite Nat2Z.inj_succ, Z.pow_succ_r by lia. destruct b; lia.
Qed.

Lemma val_bits_bits_val m : val_bits (length m) (bits_val m) = m.
Proof.
  induction m as [|b m IH]; cbn [bits_val length val_bits]; [reflexivity|].
  f_equal.
  - destruct b; [rewrite Z.odd_add_mul_2|rewrite Z.odd_add_mul_2]; reflexivity.
  - replace (((if b then 1 else 0) + 2 * bits_val m) / 2) with (bits_val m) by (destruct b; lia). exact IH.
Qed.

Lemma pad_to_id {A} (d : A) l : pad_to d (length l) l = l.
Proof. induction l; cbn [pad_to length]; [reflexivity|]. now f_equal. Qed.

Local Opaque val_bits.

Lemma chmask_roundtrip m : length m = 16%nat ->
  exists a b, chmask_marshal m = [a; b] /\ 0 <= a < 256 /\ 0 <= b < 256 /\ val_bits 16 (a + 256 * b) = m.
Proof.
  intros L. unfold chmask_marshal.
  assert (P : pad_to false 16 m = m) by (rewrite <- L; apply pad_to_id). rewrite P.
  pose proof (bits_val_range m) as R. rewrite L in R. change (2 ^ Z.of_nat 16) with 65536 in R.
  eexists. eexists. split; [reflexivity|]. split; [lia|]. split; [lia|].
  replace (bits_val m mod 256 + 256 * (bits_val m / 256)) with (bits_val m) by lia.
  rewrite <- L. apply val_bits_bits_val.
Qed.

Theorem linkadrreq_roundtrip p : encodable p = true ->
  exists bs, linkadrreq_marshal p = Ok bs /\ length bs = 4%nat /\
             Forall (fun b => 0 <= b < 256) bs /\ linkadrreq_unmarshal bs = Ok p.
Proof.
  intros H. unfold encodable in H. destruct p as [dr txp m cntl nb]. cbn [p_dr p_txp p_mask p_cntl p_nbrep] in *.
  assert (L : length m = 16%nat) by lia.
  destruct (chmask_roundtrip m L) as [a [b [E [Ha [Hb U]]]]].
  unfold linkadrreq_marshal. cbn [p_dr p_txp p_mask p_cntl p_nbrep].
  destruct (dr >? 15) eqn:D1; [lia|]. destruct (txp >? 15) eqn:D2; [lia|].
  destruct (nb >? 15) eqn:D3; [lia|]. destruct (cntl >? 7) eqn:D4; [lia|].
  rewrite E. cbn [app]. rewrite !lxor_nibbles by lia.
  eexists. split; [reflexivity|]. split; [reflexivity|]. split.
  - repeat constructor; lia.
  - cbn [linkadrreq_unmarshal]. rewrite U.
    f_equal. f_equal; lia.
Qed.

(* ---- CFList ------------------------------------------------------------------------------- *)

Lemma pad_to_app' {A} (d : A) : forall n l, (length l <= n)%nat -> pad_to d n l = l ++ repeat d (n - length l).
Proof.
  induction n as [|n IH]; intros l H.
  - destruct l; [reflexivity|cbn in H; lia].
  - destruct l as [|a l]; cbn [pad_to length app].
    + rewrite (IH [] ltac:(cbn; lia)). cbn [length app]. rewrite Nat.sub_0_r. reflexivity.
    + cbn [length] in H. rewrite (IH l) by lia. reflexivity.
Qed.

Theorem cflist_channels_roundtrip fs : length fs = 5%nat -> Forall (fun f => freq_ok f = true) fs ->
  exists bs, cflist_marshal (CFChannels fs) = Ok bs /\ length bs = 16%nat /\
             cflist_unmarshal bs = Ok (CFChannels fs).
Proof.
  intros L H. destruct fs as [|f1 [|f2 [|f3 [|f4 [|f5 [|? ?]]]]]]; try discriminate.
  inversion H as [|? ? H1 H']; subst. inversion H' as [|? ? H2 H'']; subst.
  inversion H'' as [|? ? H3 H''']; subst. inversion H''' as [|? ? H4 H'''']; subst.
  inversion H'''' as [|? ? H5 _]; subst.
  destruct (cf_freq3_roundtrip f1 H1) as [E1 R1]. destruct (cf_freq3_roundtrip f2 H2) as [E2 R2].
  destruct (cf_freq3_roundtrip f3 H3) as [E3 R3]. destruct (cf_freq3_roundtrip f4 H4) as [E4 R4].
  destruct (cf_freq3_roundtrip f5 H5) as [E5 R5].
  unfold cflist_marshal. cbn [map concat_outcomes]. rewrite E1, E2, E3, E4, E5. cbn [bind].
  unfold le3. cbn [app pad_to]. eexists. split; [reflexivity|]. split; [reflexivity|].
  unfold cflist_unmarshal. cbn [length Nat.eqb negb firstn nth]. change (0 =? 1) with false. cbv iota.
  cbn [triples]. unfold le3 in R1, R2, R3, R4, R5. rewrite R1, R2, R3, R4, R5. reflexivity.
Qed.

Local Opaque val_bits.

Definition zeros (bs : list Z) : Prop := Forall (fun b => b = 0) bs.

Lemma val_bits_zero : val_bits 16 (0 + 256 * 0) = repeat false 16.
Proof. Local Transparent val_bits. vm_compute. reflexivity. Qed.
Local Opaque val_bits.

Lemma masks_from_zeros : forall n bs pending, (length bs <= n)%nat -> zeros bs -> masks_from bs pending = [].
Proof.
  induction n as [|n IH]; intros bs pending L Z.
  - destruct bs; [reflexivity|cbn in L; lia].
  - destruct bs as [|a [|b r]]; [reflexivity|reflexivity|].
    inversion Z as [|? ? Ha Z']; subst. inversion Z' as [|? ? Hb Z'']; subst.
    cbn [masks_from]. rewrite val_bits_zero. change (all_false (repeat false 16)) with true. cbv iota.
    apply IH; [cbn [length] in L; lia|exact Z''].
Qed.

Lemma masks_from_mask m rest pending : length m = 16%nat ->
  masks_from (chmask_marshal m ++ rest) pending =
  if all_false m then masks_from rest (pending ++ [m]) else pending ++ [m] ++ masks_from rest [].
Proof.
  intros L. destruct (chmask_roundtrip m L) as [a [b [E [_ [_ U]]]]]. rewrite E. cbn [app masks_from].
  rewrite U. reflexivity.
Qed.

Lemma masks_from_strip : forall ms pad pending, Forall (fun m => length m = 16%nat) ms -> zeros pad ->
  masks_from (concat (map chmask_marshal ms) ++ pad) pending =
  match strip_trailing_zero_masks ms with [] => [] | r => pending ++ r end.
Proof.
  induction ms as [|m ms IH]; intros pad pending H Z.
  - cbn. apply (masks_from_zeros (length pad)); auto.
  - inversion H as [|? ? Hm H']; subst. cbn [map concat]. rewrite <- app_assoc.
    rewrite masks_from_mask by exact Hm. cbn [strip_trailing_zero_masks].
    destruct (all_false m) eqn:A.
    + rewrite IH by assumption. destruct (strip_trailing_zero_masks ms); [reflexivity|].
      rewrite <- app_assoc. reflexivity.
    + rewrite IH by assumption. destruct (strip_trailing_zero_masks ms); reflexivity.
Qed.

Lemma zeros_firstn n : forall l, zeros l -> zeros (firstn n l).
Proof.
  induction n as [|n IH]; intros l Z; [constructor|].
  destruct l as [|a l]; [constructor|]. inversion Z; subst. constructor; auto. now apply IH.
Qed.

Lemma chmask_marshal_length m : length (chmask_marshal m) = 2%nat.
Proof. reflexivity. Qed.

Lemma concat_masks_length ms : length (concat (map chmask_marshal ms)) = (2 * length ms)%nat.
Proof. induction ms as [|m ms IH]; [reflexivity|]. cbn [map concat length]. rewrite app_length, IH, chmask_marshal_length. lia. Qed.

(* a channel-mask CFList decodes to the masks that were encoded, minus trailing
   all-zero masks (finding C15-3 / C04-1); exact when the last mask is not all-zero *)
Theorem cflist_masks_roundtrip ms : (length ms <= 6)%nat -> Forall (fun m => length m = 16%nat) ms ->
  exists bs, cflist_marshal (CFMasks ms) = Ok bs /\ length bs = 16%nat /\
             cflist_unmarshal bs = Ok (CFMasks (strip_trailing_zero_masks ms)).
Proof.
  intros L H. unfold cflist_marshal. destruct (6 <? length ms)%nat eqn:G; [lia|].
  set (body := concat (map chmask_marshal ms)).
  assert (Lb : length body = (2 * length ms)%nat) by apply concat_masks_length.
  rewrite (pad_to_app' 0 15 body) by lia.
  eexists. split; [reflexivity|].
  assert (L16 : length ((body ++ repeat 0 (15 - length body)) ++ [1]) = 16%nat).
  { rewrite !app_length, repeat_length. cbn [length]. lia. }
  split; [exact L16|]. unfold cflist_unmarshal. rewrite L16. cbn [Nat.eqb negb].
  assert (L15 : length (body ++ repeat 0 (15 - length body)) = 15%nat) by (rewrite app_length, repeat_length; lia).
  rewrite app_nth2 by lia. rewrite L15. cbn [Nat.sub nth]. change (1 =? 1) with true. cbv iota.
  rewrite <- L15 at 1. rewrite firstn_app, firstn_all, Nat.sub_diag, firstn_O, app_nil_r.
  (* six masks, then RFU: the decoder looks at the first 12 bytes *)
  rewrite firstn_app, (firstn_all2 body) by lia.
  unfold body. rewrite masks_from_strip; [|exact H|apply zeros_firstn, Forall_forall; intros x Hx; now apply repeat_spec in Hx].
  destruct (strip_trailing_zero_masks ms); reflexivity.
Qed.

(* the three bytes after the six channel-masks are RFU: the decoded masks do not
   depend on them (fix e2c2b92, finding C06-2), and there are at most six *)
Lemma masks_from_count : forall n bs pending, (length bs <= n)%nat ->
  (length (masks_from bs pending) <= length pending + length bs / 2)%nat.
Proof.
  induction n as [|n IH]; intros bs pending L.
  - destruct bs; [cbn; lia|cbn in L; lia].
  - destruct bs as [|a [|b r]]; [cbn; lia|cbn; lia|].
    cbn [masks_from]. cbn [length] in L.
    assert (D : (length (a :: b :: r) / 2 = S (length r / 2))%nat).
    { cbn [length]. replace (S (S (length r))) with (1 * 2 + length r)%nat by lia.
      rewrite Nat.div_add_l by lia. lia. }
    rewrite D. destruct (all_false (val_bits 16 (a + 256 * b))).
    + specialize (IH r (pending ++ [val_bits 16 (a + 256 * b)])). rewrite app_length in IH. cbn [length] in IH. lia.
    + specialize (IH r []). rewrite !app_length. cbn [length] in *. lia.
Qed.

Theorem cflist_masks_rfu_ignored body (r1 r2 r3 r1' r2' r3' : Z) : length body = 12%nat ->
  cflist_unmarshal (body ++ [r1; r2; r3; 1]) = cflist_unmarshal (body ++ [r1'; r2'; r3'; 1]) /\
  exists ms, cflist_unmarshal (body ++ [r1; r2; r3; 1]) = Ok (CFMasks ms) /\ (length ms <= 6)%nat.
Proof.
  intros L.
  assert (F : forall a b c, cflist_unmarshal (body ++ [a; b; c; 1]) = Ok (CFMasks (masks_from body []))).
  { intros a b c. unfold cflist_unmarshal. rewrite app_length, L. cbn [length Nat.add Nat.eqb negb].
    rewrite app_nth2 by lia. rewrite L. cbn [Nat.sub nth]. change (1 =? 1) with true. cbv iota.
    rewrite firstn_firstn. cbn [Nat.min]. rewrite <- L at 1.
    rewrite firstn_app, firstn_all, Nat.sub_diag, firstn_O, app_nil_r. reflexivity. }
  split; [now rewrite !F|]. exists (masks_from body []). split; [apply F|].
  pose proof (masks_from_count 12 body [] ltac:(lia)) as C. rewrite L in C. cbn in C. exact C.
Qed.

Lemma strip_id ms : ms <> [] -> all_false (last ms []) = false -> strip_trailing_zero_masks ms = ms.
Proof.
  induction ms as [|m ms IH]; intros N H; [congruence|].
  cbn [strip_trailing_zero_masks]. destruct ms as [|m' ms'].
  - cbn [last] in H. cbn [strip_trailing_zero_masks]. now rewrite H.
  - rewrite IH; [reflexivity|discriminate|exact H].
Qed.
