(* Correspondence cases for C09: decoders are total.  Model side: the checked
   decoders (go_slice / go_index) must return exactly what the implementation
   returned; property side: the observation is a value or an error. *)
From Coq Require Import List NArith ZArith Bool.
From LW Require Export Base.Outcome Base.Bytes Mac.Commands Mac.Spec Mac.Stream Frame.Model Frame.Checked Frame.CheckedJoin Text.Base64 Frame.Text.
From LWGen Require Import RegistryGen.
Import ListNotations.
Open Scope N_scope.

Inductive case :=
| CPhy (bs : list N) (o : outcome phy)
| CPhyText (t : list N) (o : outcome phy)        (* PHYPayload.UnmarshalText on arbitrary text *)
| CStream (up : bool) (h : list (bool * N * Z)) (bs : list N) (o : outcome (list item))
| CCmd (up : bool) (h : list (bool * N * Z)) (bs : list N) (o : outcome item)
| CJoinAcc (bs : list N) (o : outcome payload)
| CCFList (bs : list N) (o : outcome cflist).

Definition phyeqb := outcome_eqb phy_eqb.
Definition ieqb := outcome_eqb (list_eqb item_eqb).
Definition okerrb {A} (o : outcome A) : bool := match o with Ok _ | Err => true | _ => false end.

Definition cmd_outcome (up : bool) (h : list (bool * N * Z)) (bs : list N) : outcome item :=
  let '(it, err) := cmd_unmarshal (register_all builtin_registry h) up bs in if err then Err else Ok it.

Definition check (c : case) : N :=
  match c with
  | CPhy bs o => code (phyeqb (phy_unmarshal_chk bs) o) (okerrb o)
  | CPhyText t o => code (phyeqb (match b64_decode t with Some b => phy_unmarshal_chk b | None => Err end) o) (okerrb o)
  | CStream up h bs o => code (ieqb (decode_stream (register_all builtin_registry h) up bs) o) (okerrb o)
  | CCmd up h bs o => code (outcome_eqb item_eqb (cmd_outcome up h bs) o) (okerrb o)
  | CJoinAcc bs o => code (outcome_eqb payload_eqb (joinaccept_unmarshal_chk bs) o) (okerrb o)
  | CCFList bs o => code (outcome_eqb cflist_eqb (cflist_unmarshal_chk bs) o) (okerrb o)
  end.

Definition run_cases := run_with check.
